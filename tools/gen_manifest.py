#!/usr/bin/env python3
"""Generates /verif/MANIFEST.json from the table below (kept here so the manifest stays valid)."""
import json, subprocess, os
ROOT = os.path.dirname(os.path.dirname(os.path.abspath(__file__)))
props = [json.loads(l) for l in open(os.path.join(ROOT, 'properties.jsonl'))]
ids = [p['id'] for p in props]

# id -> (category, technique, level text, level note, design ref)
CHECKS = {
 'C01': ('model_checking',
         'exhaustive small-scope input enumeration of the real selection code and send/late-lock/invoice paths against an arithmetic reference model',
         'Every wallet of <=3 (quick) / <=4 (thorough) outputs over a 5-value alphabet x every critical amount (each subset sum minus each reachable fee minus 0..n^2+1, plus numeric-limit values) x change counts {0..4} x max_outputs {0,1,2,3,500} x both strategies x amount-includes-fee, and every assignment of 10 eligibility classes to 3 outputs x min_conf {0,1,10}, is run through the real select_send_tx on a real LMDB wallet; a sub-grid runs through owner::init_send_tx (plain, late-lock+finalize, estimate) and process_invoice_tx. Oracle: inputs are spendable records of the account, sum(inputs) = amount + fee + change, fee >= network minimum, no panic, no livelock (backend call budget), nothing persisted on error.',
         'Fee base 1 so that fees are commensurate with the value alphabet; API paths use a stub node that agrees with the records as written. Small-scope hypothesis beyond 3/4 outputs.',
         'DESIGN.md §3 C01'),
 'C03': ('model_checking',
         'explicit-state breadth-first search over operation histories of the real wallet on a real chain, deduplicated by canonical projection',
         'BFS over every history (quick: depth 5 or the depth completed within the wall cap; thorough: depth 8 under a 40 min cap) of {init smallest/all, init-invoice, lock, receive, finalize, cancel, post, mine, refresh} on two slate slots of a wallet with three mature outputs, every step a call of the real libwallet API against a real grin chain. Invariant in every state: input sets of live TxSent entries (from stored context, stored tx file and the harness lock record) are pairwise disjoint; postcondition: a repeated lock/receive/finalize is refused or changes nothing; refused steps change nothing.',
         'Two slates, one account, three outputs; completed depth reported in evidence. State identity is a projection without timestamps/nonces.',
         'DESIGN.md §3 C03'),
 'C04': ('model_checking',
         'explicit-state breadth-first search over wallet/chain histories with a chain-truth oracle, plus exhaustive node-fault enumeration of refresh',
         'BFS (quick depth 3 or the depth completed under the wall cap; thorough depth 5 under a 25 min cap per base) from two base states over {mine to A.default / A.acct1 / B / miner, send A->B (two parameterisations), B->A, A.acct1->B, invoice, self-send across accounts, account switch, refresh A / B, restart A} on a real grin chain. After every successful refresh: the account\'s Unspent/Locked records == its commitments in the chain UTXO set (truth computed by rewinding every UTXO range proof with the seed), the summary figures at min_conf 1/3/10 equal the partition recomputed from chain heights / maturity / reservation, confirmed credits - debits == total + locked, and no other account\'s outputs changed. Plus, for every state within depth 1 (quick) / 2 (thorough), every index of a failing node call (transient and persistent outage) of refresh followed by a clean refresh must satisfy the same oracle.',
         'Premise enforced by the alphabet (no cancel after post, no reorg). Two wallets, two accounts; completed depth reported.',
         'DESIGN.md §3 C04'),
 'C05': ('model_checking',
         'exhaustive scenario enumeration on real two-wallet worlds with an exact-diff oracle between snapshots',
         'Every scenario of the product kind {sent, received, invoice payer, invoice issuer, late-locked, self-send sent/received side, sent spending an unconfirmed output (min_conf 0)} x change count {0,1,2} x stage {early, mid, finalized-not-posted} x other pending transactions {0,1,3} x addressing {log id, slate id} (quick: a stated sub-product) plus five refusal cases is executed on a real chain and real LMDB wallets; snapshots before creation, before cancel and after cancel are compared against the exact diff the statement allows (outputs, log entries, contexts, balances at min_conf 0/1/10, counterparty untouched).',
         'Scenario space is a fixed finite product; a refused cancel of a cancellable transaction is an outcome, not a violation.',
         'DESIGN.md §3 C05'),
 'C06': ('fault_enumeration',
         'exhaustive crash-point and write-fault enumeration at the persistent-effect seam of the real wallet',
         'For 11 scenarios (send, receive, invoice payer/issuer, late-lock, cancel, confirming refresh, scan repairs with and without delete_unconfirmed, coinbase, self-send) a clean run counts the persistent effects (LMDB commits, key-index bumps, stored-tx writes) observed by a decorator around the real LMDB backend; then every effect index x {crash before, error return}, for stored-tx writes also crash-after and torn writes (quick: 6 boundary lengths; thorough: every length), is executed. After each: all handles dropped, directories reopened, every query must answer without unwinding, every Locked output must belong to a live TxSent entry, reservations must be all-or-nothing, every pending entry must be cancellable and the spendable balance must return to the clean run\'s. Plus every truncation length of wallet.seed.',
         'Crash = process death between two effects at the WalletBackend seam; atomicity of one LMDB commit is trusted; power-loss reordering not modelled.',
         'DESIGN.md §3 C06'),
 'C07': ('model_checking',
         'explicit-state breadth-first search over request sequences on the real foreign API with a full-store diff oracle',
         'From 4 base states of the target wallet (funded; pending outgoing send; pending incoming; issued invoice) every sequence of <=2 (quick) / <=3 (thorough) requests from a 47-request alphabet (check_version; build_coinbase with 6 key-id classes; receive_tx with honest and 22 single-field-mutated slates, echoed own/already-received/invoice slates, unknown and other destination accounts, return address; finalize_tx with unrelated, echoed, forged, stripped and re-stated replies; the two exempted valid replies as controls) is executed on grin_wallet_api::Foreign, a third of them through the JSON-RPC handler. Oracle per call: exact diff of outputs, log entries, stored contexts and indices; only "one unconfirmed output + one receive entry" / "one coinbase candidate" may appear; replays are refused; spendable never decreases.',
         'Attacker slates are single-field mutations of honest slates from a second real wallet. States deduplicated by projection.',
         'DESIGN.md §3 C07'),
 'C08': ('model_checking',
         'exhaustive t-wise structural enumeration of slates through every real encoder/decoder pair with a field-wise comparator',
         'Slates are generated structurally over 12 dimensions (state, amount, fee, ttl, kernel feature+args, offset, num_participants, participant data / partial signatures, commitments, payment proof, version info, id) with real keys, signatures, commitments and range proofs: quick = exact 2-wise product (2,129 slates), thorough = 4-wise product plus the full product over presence classes (359,483 slates). Every slate goes through V4 JSON, V4 binary (two serializers), slatepack binary/JSON/armored and, for 105 representatives, every encrypted form (wallet API and packer, 3 recipient sets, with/without sender); decode(encode(x)) is compared field by field with x and all encodings with each other. 64 keys x 2 networks of slatepack/onion addresses and boundary sweeps of OutputData/TxLogEntry/Context records through ser and a real LMDB wallet round-trip too.',
         'Byte-level canonical form is not asserted. Tx kernel and offset are compared against what the wallet derives from the slate-level fields. Binary-format normalisation of stray arguments (feat 0 with an argument, feat 2 without) is counted, not flagged.',
         'DESIGN.md §3 C08'),
 'C10': ('model_checking',
         'exhaustive enumeration of (message, key) pairs and of every single-byte / single-character edit of real slatepack messages',
         '12 real slates from real exchanges x sender {none, some} x every recipient subset of size 1..3 of 4 wallets are packed by the wallet itself; every message is opened with each of 20 keys (4 wallets x derivation indices 0..3 and a second account): decrypts to the original slate and sender iff the key is a recipient\'s (packer path and wallet API path). Every encrypted message is searched for every high-entropy field of its slate and every form of the sender address (and every 12-byte plaintext window), with a control showing the needles are found in the unencrypted forms. Every single-byte edit (3 values) of every payload byte of every encrypted message must be rejected; header edits must not yield a different result; every single-character substitution / insertion (61-character alphabet) / deletion / transposition of armored messages must give an error or the identical slate (a true 32-bit check collision is classified separately by an independent reference decoder). Quick runs a stated subset.',
         'Cryptographic strength of age/x25519 is assumed; wrong keys are the enumerated ones. Messages above 2,400 characters use a reduced substitution alphabet in thorough (stated per message in the evidence).',
         'DESIGN.md §3 C10'),
 'C13': ('model_checking',
         'explicit-state breadth-first search over request-envelope sequences on the real owner API handler, cross-checked by complete undeduplicated trees',
         'An 86-envelope alphabet (plaintext key exchange; plaintext calls; calls under the current, previous and never-negotiated key; body/nonce bit flips; wrong envelope method; batches; nested envelopes; malformed envelopes; key rotation inside the channel), each built for the current state, is posted in-process to the real OwnerAPIHandlerV3. BFS with dedup runs to a fixpoint (25 states) and the complete tree of depth 2 (quick, 7,396 paths) / depth 3 (thorough, 636,056 paths) is executed without dedup; the projected state sets must agree. Oracle per request: unauthenticated => JSON-RPC error without result, wallet directory byte-identical, shared key and open/closed state unchanged; authenticated => reply encrypted under the same key; a superseded key no longer authenticates.',
         'Server ECDH keys are random: only the key generation is tracked. Authenticated requests in odd envelopes are recorded, not judged.',
         'DESIGN.md §3 C13'),
 'C14': ('model_checking',
         'exhaustive method x token x wallet-state matrix on the real Owner API with a raw-store diff, plus masked/unmasked differential history',
         'Every call shape of every token-taking api::Owner method (36 shapes, 22 in the guarded class fixed in DESIGN.md) x 6 tokens (right, absent, random, right^bit0, right^bit255, another wallet\'s) x 5 wallet states (fresh, funded, pending send, pending receive, issued invoice) is executed against a wallet opened with a keychain mask; thorough adds every single-bit neighbour of the right token. Oracle: guarded + wrong token => InvalidKeychainMask and byte-identical store (raw LMDB dump + files); any method + wrong token => store unchanged; closed wallet refuses; a 25-step history gives equal projections on a masked and an unmasked wallet with the same seed.',
         'Guarded class is taken from the API documentation (DESIGN.md table), not from the code. start_updater is only checked for an unchanged store.',
         'DESIGN.md §3 C14'),
 'C15': ('model_checking',
         'explicit-state breadth-first search over output-creating histories with a key-path monitor at the backend seam, crash injection, and restore-at-every-state',
         'BFS over histories of {receive, receive into the non-active account, send with two change outputs, coinbase new / re-request of the unconfirmed candidate / naming an existing output\'s key, issue invoice, build_output, mine, account switch, restart} on two accounts (quick depth 3 or completed depth; thorough depth 5), and a second BFS that adds a crash after each of the first four persistent effects of receive / send / coinbase (depth 2 / 3). A monitor fed by the decorator around the real LMDB backend checks that next_child never returns a path twice, that every output record is written on a path handed out exactly once (or restored by scan), and that a path is never re-bound to a different output except the documented coinbase re-request; every state also checks distinct keys / commitments and restores a fresh wallet from the seed, scans, and requires every account\'s next index to lie beyond every index found on chain.',
         'Monitor state is carried in the world meta across reopen; paths of outputs spent before a restore are outside the statement.',
         'DESIGN.md §3 C15'),
 'C16': ('model_checking',
         'exhaustive enumeration of chain states x restore start heights x injected divergences x page sizes with a chain-truth oracle',
         'For every chain/wallet state of a stated set reachable with the C04 alphabet (base states, every operation followed by a block; thorough: every pair) a new wallet is restored from the seed and scanned from every start height 0..tip (restored Unspent records must equal the seed\'s UTXOs at heights >= start in value, height, coinbase flag, lock height and account; spendable total must equal the chain truth), and every single (quick) / pair (thorough) of divergences from {deleted record, Unspent->Spent, Unspent->Locked with dangling entry, stale unconfirmed output, locked by a never-posted tx, cancel-after-post, 2-block reorg} is injected into the original wallet and repaired by scan (with delete_unconfirmed where the statement requires it); afterwards every account\'s books must equal the chain truth, and a second scan must change nothing. Node page sizes 1,2,3 exercise the scan batch loop; thorough adds a 1030-block chain crossing the real 1000-output batch.',
         'Chain truth = UTXOs whose range proof rewinds with the seed; account = parent path of the key.',
         'DESIGN.md §3 C16'),
 'C17': ('model_checking',
         'exhaustive parameter sweep of the real protocol steps and refresh on real worlds',
         'Every combination of protocol step {receive_tx, process_invoice_tx, owner finalize_tx, foreign finalize_tx} x cutoff class {0, 1, h-1, h, h+1, u64::MAX} relative to the height the wallet has observed x staleness of that observation x other pending transactions, and every combination of ttl_blocks {none,1,2,3,50} x blocks mined 0..4 x side {sender, recipient} x other pending transactions for refresh, is executed; oracle: refused iff cutoff != 0 and observed height >= cutoff, refusals change nothing, unexpired slates complete, refresh cancels exactly the expired pending transactions and releases their inputs.',
         'Cutoff is set directly on the slate handed to the step (a counterparty controls it).',
         'DESIGN.md §3 C17'),
 'C18': ('model_checking',
         'exhaustive enumeration of reorganisation histories on a real forking chain with a chain-truth oracle',
         'On a real grin chain a payment to wallet B is confirmed in block R; every case of the product fork depth {1,2(,3)} below R x blocks after R {1 (mined by B: orphaned reward), 0} x fork {without, with} the transaction x extra fork length x every sequence of up to three head flips (fork wins, original wins, fork wins) with an action {scan, full refresh, refresh, nothing} after each flip is executed with real side-branch blocks. After every scan / full refresh: if the kernel is not on the current chain the entry must be TxReverted and unconfirmed, its output neither Unspent nor Locked, amount_reverted = its value, total and spendable equal the chain truth for the seed (so orphaned rewards are not counted), and a send never selects the reverted or an orphaned output; when the reverted transaction is mined again an ordinary refresh must report it confirmed and spendable.',
         'Full refresh = update_wallet_state(update_all = true). One receiving wallet, one payment.',
         'DESIGN.md §3 C18'),
 'C19': ('model_checking',
         'exhaustive small-scope input enumeration of the real query path against a reference filter',
         'Every query of a stated finite space (all single fields, all pairs, full flag product, sort x order x limit x every single filter; thorough: all triples and pairs x sort/limit) is executed through owner::retrieve_txs on a real LMDB wallet holding two discriminating 11-entry, 3-account logs and compared with a reference filter written from the field documentation (MUST <= result <= MAY, order, limit-as-prefix). Exhaustive within that scope; nothing sampled.',
         'Small-scope hypothesis: values outside the alphabets behave like their neighbours. Documentation ambiguities resolved by MUST/MAY margins (DESIGN.md C19).',
         'DESIGN.md §3 C19'), 'C20': ('model_checking',
         'stateless enumeration of thread schedules of the real code under a cooperative scheduler (wallet-lock and node-call granularity) with a serializability oracle',
         'Real OS threads, exactly one runnable at a time: one thread runs owner::update_wallet_state or owner::scan, one to three threads run owner/foreign operations (init, lock, receive, finalize, cancel, post), an environment thread fires node events (block mined, next node call fails). Scheduling points are every wallet-mutex acquisition (hook in wallet_lock!) and every NodeClient call; a thread waiting for the mutex is enabled iff it is free. Every schedule is enumerated depth-first by re-execution from a snapshot (quick: at most 2 preemptions and a per-scenario cap; thorough: unbounded preemptions, cap reported). Oracle: the final projection of the wallet (outputs, reservations, entry types, confirmation flags, excess, proofs, key indices, contexts) must equal the final projection of some serial order of the same units (all permutations are executed); no deadlock; no panic; a prefix that cannot be replayed is a machinery error.',
         'Granularity is the wallet mutex and node calls: all shared wallet state is behind that mutex. Heights and timestamps are not compared.',
         'DESIGN.md §3 C20'),
}
NA = {}

hooks_commits = subprocess.run(['git', '-C', '/repo', 'log', '--format=%H %s'], capture_output=True, text=True).stdout.splitlines()
hook_shas = [l.split()[0] for l in hooks_commits if 'verif hooks' in l]

m = {
 'version': 1,
 'setup_cmd': 'cd /verif/harness && cp /repo/Cargo.lock Cargo.lock && CARGO_NET_OFFLINE=true CARGO_TARGET_DIR=/verif/.build cargo build --offline',
 'hooks': {
  'guard': 'cargo feature verif_hooks on grin_wallet_libwallet',
  'enable': 'the harness crate /verif/harness depends on /repo/libwallet by path with features=["verif_hooks"]; nothing in /repo enables it',
  'baseline_off_cmd': 'cd /repo && cargo test --workspace --no-fail-fast --offline',
  'source_commits': hook_shas,
  'add_only': True,
 },
 'engines': [
  {'name': 'gwv', 'path': 'harness', 'serves_properties': sorted(CHECKS.keys()),
   'kind_free_text': 'Rust binary linking the real /repo crates: E1 exhaustive small-scope input enumeration, E2 explicit-state BFS over real chain+LMDB worlds with canonical-projection dedup, E3 stateless schedule enumeration under a cooperative scheduler; crash/fault injection at the WalletBackend seam'},
 ],
 'checks': [],
 'not_applicable': [],
 'notes': 'See DESIGN.md. ./check <ID> <quick|thorough> rebuilds the harness and the /repo crates from the working tree, runs one property, writes evidence/<ID>.json. Exit 0 held, 1 VIOLATION, 2 machinery failure.',
}
for i in ids:
    if i in CHECKS:
        cat, tech, text, note, ref = CHECKS[i]
        m['checks'].append({
            'property_id': i,
            'quick_cmd': './check %s quick' % i,
            'thorough_cmd': './check %s thorough' % i,
            'evidence_file': 'evidence/%s.json' % i,
            'replay_cmd_template': './check %s --replay {path}' % i,
            'engine': 'gwv',
            'level_claimed': {'category': cat, 'text': text, 'design_ref': ref},
            'level_note': note,
            'technique': tech,
        })
    else:
        m['not_applicable'].append({'property_id': i, 'reason': NA.get(i, 'check not built yet (planned, see DESIGN.md §3); not claimed until it exists')})
json.dump(m, open(os.path.join(ROOT, 'MANIFEST.json'), 'w'), indent=1)
print('checks:', [c['property_id'] for c in m['checks']])
