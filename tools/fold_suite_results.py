#!/usr/bin/env python3
"""Fold the main session's own full-suite runs of each seeded change (tools: /tmp/run_suites.sh,
log /tmp/suite-wt-results.log: '<name> passed=N failed=M [tests]') into seeded/<name>/meta.json."""
import json, os, re, sys
log = sys.argv[1] if len(sys.argv) > 1 else '/tmp/suite-wt-results.log'
root = os.path.join(os.path.dirname(os.path.abspath(__file__)), '..', 'seeded')
n = 0
for line in open(log):
    m = re.match(r'(\S+) passed=(\d*) failed=(\d*) ?(.*)', line.strip())
    if not m or not m.group(2):
        continue
    name, p, f, rest = m.groups()
    mp = os.path.join(root, name, 'meta.json')
    if not os.path.exists(mp):
        continue
    meta = json.load(open(mp))
    v = meta.setdefault('verified_by_main', {})
    v['existing_suite_with_change'] = {
        'command': 'cargo test --workspace --offline --no-fail-fast (scratch worktree, patch applied)',
        'passed': int(p), 'failed': int(f),
        'note': rest.strip() or 'all existing tests pass',
    }
    json.dump(meta, open(mp, 'w'), indent=1)
    n += 1
print('folded', n)
