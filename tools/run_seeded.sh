#!/bin/bash
# tools/run_seeded.sh <seeded-dir> [quick|thorough] [CHECK-ID ...]
# Runs the given checks (default: the property named in meta.json) against a copy of /repo's HEAD
# tree with seeded/<id>/patch.diff applied, and prints their verdict lines.
# /repo itself is not touched: the patched copy is bind-mounted over /repo in a private mount
# namespace (and a separate build directory over .build), so that checks running elsewhere on
# the machine keep seeing the real tree. Falls back to patching /repo's working tree (restored
# afterwards) where mount namespaces are not available.
set -u
D="$(realpath "${1:?seeded dir}")"; TIER="${2:-quick}"; shift; shift 2>/dev/null
ROOT="$(cd "$(dirname "$0")/.." && pwd)"
IDS="$*"
[ -z "$IDS" ] && IDS="$(python3 -c "import json;print(json.load(open('$D/meta.json'))['property'])")"
mkdir -p "$ROOT/.seeded-evidence"

run_checks() {
  for ID in $IDS; do
    cp "$ROOT/evidence/$ID.json" "$ROOT/.seeded-evidence/$ID.orig.json" 2>/dev/null
    echo "== $ID ($TIER) with $(basename "$D")"
    "$ROOT/check" "$ID" "$TIER" 2>&1 | grep -E "^(VIOLATION|OK|MACHINERY|KNOWN-FINDING|  key:|  what:)" | cut -c1-400
    echo "exit=${PIPESTATUS[0]}"
    # the evidence/replay files written under a seeded change are not evidence of the real tree
    cp "$ROOT/.seeded-evidence/$ID.orig.json" "$ROOT/evidence/$ID.json" 2>/dev/null
  done
  rm -f "$ROOT"/replays/*.json
}

if unshare -m true 2>/dev/null; then
  COPY=/tmp/seedrepo; NEW=/tmp/seedrepo.new.$$
  # one run at a time: the copy and the build directory are shared between runs
  exec 9>/tmp/seedrepo.lock; flock 9
  rm -rf "$NEW"; mkdir -p "$NEW" "$COPY" "$ROOT/.build-seeded"
  git -C /repo archive HEAD | tar -x -C "$NEW" || exit 2
  # content-based sync without preserving times: a file that differs is rewritten (new mtime, so cargo
  # rebuilds it), an identical one is left alone
  rsync -rc --delete "$NEW"/ "$COPY"/ && rm -rf "$NEW"
  (cd "$COPY" && git apply "$D/patch.diff") || { echo "patch does not apply"; exit 2; }
  export -f run_checks; export D TIER IDS ROOT
  unshare -m bash -c "mount --bind $COPY /repo && mount --bind $ROOT/.build-seeded $ROOT/.build && run_checks"
  (cd "$COPY" && git apply -R "$D/patch.diff")
else
  if ! git -C /repo diff --quiet; then echo "/repo working tree is not clean"; exit 2; fi
  git -C /repo apply "$D/patch.diff" || { echo "patch does not apply"; exit 2; }
  trap 'git -C /repo checkout -- . ; git -C /repo clean -fdq -- libwallet impls api controller util config src 2>/dev/null' EXIT
  run_checks
fi
