#!/bin/bash
# tools/run_seeded.sh <seeded-dir> [quick|thorough] [CHECK-ID ...]
# Applies seeded/<id>/patch.diff to /repo's working tree, runs the given checks (default: the
# property named in meta.json), prints their verdict lines, and always restores /repo.
set -u
D="$(realpath "${1:?seeded dir}")"; TIER="${2:-quick}"; shift; shift 2>/dev/null
ROOT="$(cd "$(dirname "$0")/.." && pwd)"
IDS="$*"
[ -z "$IDS" ] && IDS="$(python3 -c "import json;print(json.load(open('$D/meta.json'))['property'])")"
if ! git -C /repo diff --quiet; then echo "/repo working tree is not clean"; exit 2; fi
git -C /repo apply "$D/patch.diff" || { echo "patch does not apply"; exit 2; }
trap 'git -C /repo checkout -- . ; git -C /repo clean -fdq -- libwallet impls api controller util config src 2>/dev/null' EXIT
mkdir -p "$ROOT/.seeded-evidence"
for ID in $IDS; do
  cp "$ROOT/evidence/$ID.json" "$ROOT/.seeded-evidence/$ID.orig.json" 2>/dev/null
  echo "== $ID ($TIER) with $(basename "$D")"
  "$ROOT/check" "$ID" "$TIER" 2>&1 | grep -E "^(VIOLATION|OK|MACHINERY|KNOWN-FINDING|  key:|  what:)" | cut -c1-400
  echo "exit=${PIPESTATUS[0]}"
  # the evidence/replay files written under a seeded change are not evidence of the real tree
  cp "$ROOT/.seeded-evidence/$ID.orig.json" "$ROOT/evidence/$ID.json" 2>/dev/null
done
rm -f "$ROOT"/replays/*.json
