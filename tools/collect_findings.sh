#!/bin/bash
# tools/collect_findings.sh — after the checks have run on the unchanged tree, keep the replay
# artefacts of the known findings (replays/known-*.json, written by the checks) under findings/
# (committed). `./check <ID> --replay findings/<file>` re-runs one of them.
ROOT="$(cd "$(dirname "$0")/.." && pwd)"
mkdir -p "$ROOT/findings"
for f in "$ROOT"/replays/known-*.json; do
  [ -f "$f" ] || continue
  cp "$f" "$ROOT/findings/$(basename "$f" | sed 's/^known-//')"
done
ls "$ROOT/findings" | wc -l
