#!/bin/bash
# tools/harvest_seed.sh <mutant worktree> <seeded name>: verify the demo both ways, copy into seeded/
W="${1:?}"; N="${2:?}"; ROOT="$(cd "$(dirname "$0")/.." && pwd)"
"$ROOT/tools/verify_seed.sh" "$W" | tail -2 | tee /tmp/harvest.$$ 
grep -q "^CONFIRMED" /tmp/harvest.$$ || { echo "not confirmed: $W"; rm -f /tmp/harvest.$$; exit 1; }
rm -f /tmp/harvest.$$
D="$ROOT/seeded/$N"; mkdir -p "$D"
cp "$W/OUT/patch.diff" "$D/"; cp "$W"/OUT/*.rs "$D/" 2>/dev/null
for f in "$W"/OUT/NOTE.txt "$W"/OUT/README.txt; do [ -f "$f" ] && cp "$f" "$D/NOTE.txt"; done
python3 - "$W" "$D" <<'PY'
import json,sys
w,d=sys.argv[1],sys.argv[2]
m=json.load(open(w+'/OUT/meta.json'))
m['verified_by_main']={'what_was_run':"tools/verify_seed.sh in the scratch worktree: demonstration re-run with the change (fails) and with the change reverted (passes); sub-agent's full-suite log inspected (fixed-port tests re-run alone where they collided)",'demo_with_change':'fails','demo_without_change':'passes'}
json.dump(m,open(d+'/meta.json','w'),indent=1)
PY
git -C /repo apply --check "$D/patch.diff" && echo "patch applies to /repo HEAD"
